(** Model of src/bash.rs [write_completion_script]: the whole bash script, from the templates the
    translator regenerates (coq/gen/TplBash.v) and the table printers.  [write!] = [fmt],
    [writeln!] = [fmtln].  The small non-raw format strings of the printers ("[{literal_id}]={to}",
    the " " of [join]) are transcribed by hand; the byte-for-byte tie against Rust's script covers them.

    Parameters that are not computed here: the signature line (it carries COMPLGEN_VERSION, taken
    from Rust's text), the literal orders (inside the tables) and the order of the shape groups
    ([hashes.sort_by_key(shape_hash)] + [chunk_by(isomorphic_to)]; DESIGN 4.3), validated by
    [valid_grouping]. *)
From Coq Require Import DecimalString.
From CG Require Import Base.Prelude Model.Ast Model.Dfa Model.Tpl Model.Quote Model.Tables.
From CGgen Require Import Consts TplBash.
Open Scope N_scope.
Open Scope list_scope.

Definition nl : string := String (ascii_of_nat 10) EmptyString.

(** decimal [Display] of an unsigned integer *)
Definition sN (n : N) : string := NilZero.string_of_uint (N.to_uint n).

Fixpoint join (sep : string) (l : list string) : string :=
  match l with
  | [] => EmptyString
  | [x] => x
  | x :: r => append x (append sep (join sep r))
  end.

Fixpoint sconcat (l : list string) : string :=
  match l with
  | [] => EmptyString
  | x :: r => append x (sconcat r)
  end.

Definition fmt (t : list seg) (env : list (string * string)) : string := render env t.
Definition fmtln (t : list seg) (env : list (string * string)) : string := append (render env t) nl.

(** [str::trim] for the ASCII white space (the parser has already trimmed command texts with the
    same function, so this second trim only ever sees ASCII-trimmed text) *)
Definition is_ws (c : ascii) : bool :=
  let n := nat_of_ascii c in
  Nat.eqb n 32 || (Nat.leb 9 n && Nat.leb n 13).

Fixpoint trim_left (s : string) : string :=
  match s with
  | String c t => if is_ws c then trim_left t else s
  | EmptyString => s
  end.

Fixpoint trim_right (s : string) : string :=
  match s with
  | EmptyString => EmptyString
  | String c t =>
      match trim_right t with
      | EmptyString => if is_ws c then EmptyString else String c EmptyString
      | t' => String c t'
      end
  end.

Definition trim (s : string) : string := trim_right (trim_left s).

Definition kv (p : N * N) : string := append "[" (append (sN (fst p)) (append "]=" (sN (snd p)))).

Definition write_match_transitions (t : tables) : string :=
  append (fmtln write_match_transitions_0 [])
  (append (sconcat (map (fun row => fmtln write_match_transitions_1
                                     [("state", sN (fst row)); ("transitions", join " " (map kv (snd row)))]) (t_mlit t)))
  (append (match t_mcmd t with
           | Some m => append (fmtln write_match_transitions_2 [])
                         (sconcat (map (fun row => fmtln write_match_transitions_3
                                     [("state", sN (fst row)); ("transitions", join " " (map kv (snd row)))]) m))
           | None => EmptyString
           end)
          (match t_mstar t with
           | Some l => fmtln write_match_transitions_4 [("transitions", join " " (map kv l))]
           | None => EmptyString
           end))).

Definition write_literals (t : tables) : string :=
  fmtln write_literals_0
    [("literals", join " " (map (fun l => make_string_constant Bash (snd (fst l))) (t_literals t)))].

Definition level_rows (cell : list seg) (rows : list (N * list N)) : string :=
  join " " (map (fun r => fmt cell [("from_state", sN (fst r)); ("0", join " " (map sN (snd r)))]) rows).

Definition write_levels (cell line : list seg) (levels : list (list (N * list N))) : string :=
  sconcat (map (fun kl => fmtln line [("level", sN (fst kl)); ("initializer", level_rows cell (snd kl))])
               (number_from 0 levels)).

Definition write_completion_tables (t : tables) : string :=
  append (write_levels write_completion_tables_0 write_completion_tables_1 (t_clit t))
  (append (match t_ccmd t with
           | Some m => write_levels write_completion_tables_2 write_completion_tables_3 m
           | None => EmptyString
           end)
          (fmtln write_completion_tables_4 [("max_fallback_level", sN (t_maxlevel t))])).

Definition write_accepting_states (acc : list N) : string :=
  fmtln write_accepting_states_0
    [("initializer", join " " (map (fun s => append "[" (append (sN s) "]=1")) acc))].

Definition write_subword_wrapper_fn (command : string) (id : N) (t : tables) (acc : list N) : string :=
  append (fmtln write_subword_wrapper_fn_0 [("command", command); ("id", sN id)])
  (append (write_accepting_states acc)
  (append (write_literals t)
  (append (write_match_transitions t)
  (append (write_completion_tables t)
  (append (fmtln write_subword_wrapper_fn_1 [("command", command)])
          (fmtln write_subword_wrapper_fn_2 [])))))).

Definition write_subword_shape_fn (command : string) (shape_id : N) (t : tables) : string :=
  append (fmtln write_subword_shape_fn_0 [("command", command); ("shape_id", sN shape_id)])
  (append (write_match_transitions t)
  (append (write_completion_tables t)
  (append (fmtln write_subword_shape_fn_1 [("command", command)])
          (fmtln write_subword_shape_fn_2 [])))).

Definition write_subword_shape_wrapper_fn (command : string) (id shape_id : N) (t : tables) (acc : list N) : string :=
  append (fmtln write_subword_shape_wrapper_fn_0 [("command", command); ("id", sN id)])
  (append (write_accepting_states acc)
  (append (write_literals t)
  (append (fmtln write_subword_shape_wrapper_fn_1 [("command", command); ("shape_id", sN shape_id)])
          (fmtln write_subword_shape_wrapper_fn_2 [])))).

Definition write_subword_fn (command : string) (needs_cmd needs_star : bool) : string :=
  let env := [("command", command); ("MATCH_FN_NAME", match_fn_name_bash)] in
  sconcat [ fmtln write_subword_fn_0 env;
            (if needs_star then fmt write_subword_fn_1 env else EmptyString);   (* matches mode: the nonterminal first *)
            fmtln write_subword_fn_2 env;
            (if needs_cmd then fmt write_subword_fn_3 env else EmptyString);
            (if needs_star then fmt write_subword_fn_4 env else EmptyString);
            fmt write_subword_fn_5 env;
            fmt write_subword_fn_6 env;
            fmt write_subword_fn_7 env;
            (if needs_cmd then fmtln write_subword_fn_8 env else EmptyString);
            fmt write_subword_fn_9 env;
            fmtln write_subword_fn_10 env;
            nl ].

Definition tables_of_id (a : alltables) (id : N) : res tables :=
  match find (fun e => N.eqb (snd (fst e)) id) (a_subwords a) with
  | Some e => Ok (snd e)
  | None => Panic "tables_from_id.get().unwrap()"
  end.

Definition accepting_of_id (a : alltables) (id : N) : res (list N) :=
  match assocN id (a_subaccepting a) with
  | Some l => Ok l
  | None => Panic "accepting_from_id.get().unwrap()"
  end.

Definition script_id (a : alltables) (pi : N) : res N :=
  match find (fun e => N.eqb (fst (fst e)) pi) (a_subwords a) with
  | Some e => Ok (snd (fst e))
  | None => Panic "id_from_dfa.get().unwrap()"
  end.

(** one chunk of [isomorphic_subwords.enumerate()] *)
Definition write_group (command : string) (a : alltables) (shape_id : N) (group : list N) : res string :=
  match group with
  | [] => Panic "chunk_by: empty chunk"
  | [id] =>
      do t <- tables_of_id a id;
      do acc <- accepting_of_id a id;
      Ok (append (write_subword_wrapper_fn command id t acc) nl)
  | leader :: _ =>
      do lt <- tables_of_id a leader;
      do ws <- omap (fun id => do t <- tables_of_id a id;
                               do acc <- accepting_of_id a id;
                               Ok (append (write_subword_shape_wrapper_fn command id shape_id t acc) nl)) group;
      Ok (append (write_subword_shape_fn command shape_id lt) (append nl (sconcat ws)))
  end.

Definition cmd_body (c : string) : string :=
  match trim c with EmptyString => ":" | b => b end.

Definition script (command sig : string) (start_state : N) (nd : needs) (a : alltables)
           (groups : list (list N)) : res string :=
  let env := [("command", command); ("MATCH_FN_NAME", match_fn_name_bash)] in
  let main := a_main a in
  do subs_part <-
    (if n_subwords nd then
       do gs <- omap (fun ig => write_group command a (fst ig) (snd ig)) (number_from 0 groups);
       Ok (append (sconcat gs) (write_subword_fn command (n_sub_cmd nd) (n_sub_star nd)))
     else Ok EmptyString);
  do subtrans_part <-
    (if n_subwords nd then
       do rows <- omap (fun row =>
           do kvs <- omap (fun pt => do id <- script_id a (fst pt); Ok (kv (id, snd pt))) (snd row);
           Ok (fmtln write_completion_script_5 [("state", sN (fst row)); ("state_transitions", join " " kvs)]))
         (a_subtrans a);
       Ok (append (fmtln write_completion_script_4 []) (sconcat rows))
     else Ok EmptyString);
  Ok (sconcat [
    append "# " (append sig nl);
    fmt write_completion_script_0 [];
    sconcat (map (fun ic => fmtln write_completion_script_1
                              (("id", sN (fst ic)) :: ("cmd", cmd_body (snd ic)) :: env))
                 (number_from 0 (a_commands a)));
    subs_part;
    fmt write_completion_script_2 env;
    fmtln write_completion_script_3 env;
    write_literals main;
    write_match_transitions main;
    subtrans_part;
    fmt write_completion_script_6 (("starting_state", sN start_state) :: env);
    (if n_subwords nd then fmt write_completion_script_7 env else EmptyString);
    (if n_top_cmd nd then fmt write_completion_script_8 env else EmptyString);
    (if n_top_star nd then fmt write_completion_script_9 env else EmptyString);
    fmt write_completion_script_10 env;
    write_completion_tables main;
    (if n_subwords nd then write_levels write_completion_script_11 write_completion_script_12 (a_csub a)
     else EmptyString);
    fmt write_completion_script_13 (("max_fallback_level", sN (t_maxlevel main)) :: env);
    (if n_subwords nd then fmt write_completion_script_14 env else EmptyString);
    (if n_top_cmd nd then fmt write_completion_script_15 env else EmptyString);
    fmt write_completion_script_16 env;
    fmt write_completion_script_17 env ]).

(** the groups are a partition of the script ids into runs of pairwise-adjacent isomorphic tables *)
Fixpoint adjacent_iso (a : alltables) (g : list N) : bool :=
  match g with
  | x :: ((y :: _) as r) =>
      match tables_of_id a x, tables_of_id a y with
      | Ok tx, Ok ty => isomorphic_to tx ty && adjacent_iso a r
      | _, _ => false
      end
  | _ => true
  end.

Definition valid_grouping (a : alltables) (groups : list (list N)) : bool :=
  let ids := map (fun e => snd (fst e)) (a_subwords a) in
  let flat := List.concat groups in
  Nat.eqb (List.length flat) (List.length ids)
  && forallb (fun i => memN i flat) ids
  && forallb (fun i => memN i ids) flat
  && forallb (fun g => match g with [] => false | _ => adjacent_iso a g end) groups.

(** the whole pipeline from the automaton, as the tie runs it *)
Definition script_of_dfa (command sig : string) (c : cdfa) (ord_main : list (string * string))
           (ord_subs : list (N * list (string * string))) (groups : list (list N)) : res (string * bool) :=
  do na <- all_tables Bash c ord_main ord_subs;
  do s <- script command sig (d_start (c_main c)) (fst na) (snd na) groups;
  Ok (s, valid_orders c ord_main ord_subs && valid_grouping (snd na) groups).
