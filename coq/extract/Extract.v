(** Extraction of the executable models and specifications.
    Directives: ExtrOcamlBasic (bool, option, unit, list, prod, sumbool, sumor -> OCaml natives;
    andb/orb inlined) and ExtrOcamlString (ascii -> char, string -> char list).  No Extract Constant /
    Extract Inductive of our own; nat, N, positive stay the extracted inductive types.
    One `Require` line per module and one root per line, so that branches merge by union. *)
From CG Require Import Base.Prelude.
From CG Require Import Model.Ast.
From CG Require Import Model.Check.
From CG Require Import Model.Dfa.
From CG Require Import Spec.Choice.
From CGgen Require Import Consts.
From CG Require Import Model.Tpl.
From CG Require Import Model.Quote.
From CG Require Import Spec.ShellDQ.
From CG Require Import Model.Tables.
From CG Require Import Model.EmitBash.
From CG Require Import Spec.ScriptRead.
(* add new Require lines above this line *)
Require Import ExtrOcamlBasic ExtrOcamlString.
Extraction Language OCaml.
Set Extraction KeepSingleton.
Separate Extraction
  Consts.builtins
  Consts.array_start_bash
  Check.from_grammar
  Dfa.accepts
  Dfa.inp_eqb
  Dfa.mkcdfa
  Dfa.mkall
  Dfa.trans_states
  Choice.spec
  Quote.make_string_constant
  ShellDQ.read
  ShellDQ.read_list
  ShellDQ.admissibleb
  Tables.all_tables
  Tables.valid_orders
  Tables.isomorphic_to
  EmitBash.script_of_dfa
  ScriptRead.read_stmts
  (* add new roots above this line *)
  Prelude.pow2.
