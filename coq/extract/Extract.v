(** Extraction of the executable models and specifications.
    Directives: ExtrOcamlBasic (bool, option, unit, list, prod, sumbool, sumor -> OCaml natives;
    andb/orb inlined) and ExtrOcamlString (ascii -> char, string -> char list).  No Extract Constant /
    Extract Inductive of our own; nat, N, positive stay the extracted inductive types.
    One `Require` line per module and one root per line, so that branches merge by union. *)
From CG Require Import Base.Prelude.
From CG Require Import Model.Ast.
From CG Require Import Model.Check.
From CG Require Import Model.Dfa.
From CG Require Import Spec.Choice.
From CGgen Require Import Consts.
From CG Require Import Model.Glob.
From CG Require Import Model.BashSem.
From CG Require Import Model.ChainTables.
From CG Require Import Model.C17Witness.
From CG Require Import Spec.Invocations.
(* add new Require lines above this line *)
Require Import ExtrOcamlBasic ExtrOcamlString.
Extraction Language OCaml.
Set Extraction KeepSingleton.
Separate Extraction
  Consts.builtins
  Consts.array_start_bash
  Check.from_grammar
  Dfa.accepts
  Dfa.inp_eqb
  Dfa.mkcdfa
  Dfa.mkall
  Dfa.trans_states
  Choice.spec
  Glob.glob_match
  Glob.printf_q
  Glob.rm_longest_prefix
  Glob.rm_shortest_prefix
  Glob.rm_shortest_suffix
  BashSem.run_from
  BashSem.run
  BashSem.subword_matches
  BashSem.subword_complete
  BashSem.filter_lines
  BashSem.sort_desc
  BashSem.assoc_of
  ChainTables.chain_alltables
  C17Witness.w1
  C17Witness.w2
  Invocations.spec_run
  (* add new roots above this line *)
  Prelude.pow2.
