(** Extraction of the executable models and specifications.
    Directives: ExtrOcamlBasic (bool, option, unit, list, prod, sumbool, sumor -> OCaml natives;
    andb/orb inlined) and ExtrOcamlString (ascii -> char, string -> char list).  No Extract Constant /
    Extract Inductive of our own; nat, N, positive stay the extracted inductive types.
    One `Require` line per module and one root per line, so that branches merge by union. *)
From CG Require Import Base.Prelude.
From CG Require Import Model.Ast.
From CG Require Import Model.Check.
From CG Require Import Model.Dfa.
From CG Require Import Spec.Choice.
From CGgen Require Import Consts.
From CG Require Import Model.Dot.
From CG Require Import Spec.DotRead.
From CG Require Import Spec.DotSpec.
(* add new Require lines above this line *)
Require Import ExtrOcamlBasic ExtrOcamlString.
Extraction Language OCaml.
Set Extraction KeepSingleton.
Separate Extraction
  Consts.builtins
  Consts.array_start_bash
  Check.from_grammar
  Dfa.accepts
  Dfa.inp_eqb
  Dfa.mkcdfa
  Dfa.mkall
  Dfa.trans_states
  Choice.spec
  Dot.of_dfa_with
  Dot.of_regex_with
  Dot.pinned
  Dot.patched
  Dot.mkvariant
  Dot.escape_dot
  Dot.escape_quotes
  Dot.known_labels
  Dot.known_subacc
  Dot.known_phantom
  Dot.known_rx
  Dot.wf_cdfa
  Dot.known_rx_all
  Dot.rx_wf_b
  Dot.rx_total_b
  DotSpec.sub_ids
  DotRead.read
  DotRead.render_label
  DotSpec.graph_of_dfa
  DotSpec.view
  DotSpec.compare
  DotSpec.gdiff_ok
  DotSpec.regex_missing
  (* add new roots above this line *)
  Prelude.pow2.
