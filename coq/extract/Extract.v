(** Extraction of the executable models and specifications.
    Directives: ExtrOcamlBasic (bool, option, unit, list, prod, sumbool, sumor -> OCaml natives;
    andb/orb inlined) and ExtrOcamlString (ascii -> char, string -> char list).  No Extract Constant /
    Extract Inductive of our own; nat, N, positive stay the extracted inductive types.
    One `Require` line per module and one root per line, so that branches merge by union. *)
From CG Require Import Base.Prelude.
From CG Require Import Model.Ast.
From CG Require Import Model.Check.
From CG Require Import Model.Dfa.
From CG Require Import Spec.Choice.
From CGgen Require Import Consts.
From CG Require Import Spec.Rx.
From CG Require Import Spec.Meaning.
From CG Require Import Spec.KnownC01.
From CG Require Import Spec.TokAut.
From CG Require Import Spec.Domain.
From CG Require Import Spec.Ambig.
(* add new Require lines above this line *)
Require Import ExtrOcamlBasic ExtrOcamlString.
Extraction Language OCaml.
Set Extraction KeepSingleton.
Separate Extraction
  Consts.builtins
  Consts.array_start_bash
  Check.from_grammar
  Dfa.accepts
  Dfa.inp_eqb
  Dfa.mkcdfa
  Dfa.mkall
  Dfa.trans_states
  Choice.spec
  Meaning.complete
  Meaning.ambiguous_run
  Meaning.matched
  Meaning.run
  Meaning.step
  Meaning.start
  Meaning.moves
  KnownC01.piece_boundary
  KnownC01.last_word_escape
  Domain.C01_domain
  Domain.C01_env_ok
  Ambig.find
  (* add new roots above this line *)
  Prelude.pow2.
