(** Extraction of the executable models.  Directives: ExtrOcamlBasic (bool, option, unit, list,
    prod, sumbool, sumor -> OCaml natives; andb/orb inlined) and ExtrOcamlString (ascii -> char,
    string -> char list).  No Extract Constant / Extract Inductive of our own; nat, N, positive
    stay the extracted inductive types. *)
From CG Require Import Base.Prelude Model.Ast Model.Check Model.Dfa.
From CG Require Import Spec.Choice.
From CGgen Require Import Consts.
Require Import ExtrOcamlBasic ExtrOcamlString.
Extraction Language OCaml.
Set Extraction KeepSingleton.
Separate Extraction
  Consts.builtins Consts.array_start_bash
  Check.from_grammar
  Dfa.accepts Dfa.inp_eqb Dfa.mkcdfa Dfa.mkall Dfa.trans_states
  Choice.spec.
