(** Extraction of the executable models and specifications.
    Directives: ExtrOcamlBasic (bool, option, unit, list, prod, sumbool, sumor -> OCaml natives;
    andb/orb inlined) and ExtrOcamlString (ascii -> char, string -> char list).  No Extract Constant /
    Extract Inductive of our own; nat, N, positive stay the extracted inductive types.
    One `Require` line per module and one root per line, so that branches merge by union. *)
From CG Require Import Base.Prelude.
From CG Require Import Model.Ast.
From CG Require Import Model.Check.
From CG Require Import Model.Dfa.
From CG Require Import Spec.Choice.
From CGgen Require Import Consts.
From CG Require Import Spec.Rx.
From CG Require Import Spec.Meaning.
From CG Require Import Spec.KnownC01.
From CG Require Import Spec.TokAut.
From CG Require Import Spec.Domain.
From CG Require Import Spec.DomainCore.
From CG Require Import Spec.TwoReadings.
From CG Require Import Spec.Ambig.
From CG Require Import Model.Tpl.
From CG Require Import Model.Quote.
From CG Require Import Spec.ShellDQ.
From CG Require Import Model.Tables.
From CG Require Import Model.EmitBash.
From CG Require Import Spec.ScriptRead.
From CG Require Import Model.Dot.
From CG Require Import Spec.DotRead.
From CG Require Import Spec.DotSpec.
From CG Require Import Model.Glob.
From CG Require Import Model.BashSem.
From CG Require Import Model.ChainTables.
From CG Require Import Model.C17Witness.
From CG Require Import Spec.Invocations.
From CG Require Import Spec.Mistakes.
From CG Require Import Spec.Warnings.
From CG Require Import Model.Minimize.
From CG Require Import Spec.DfaEquiv.
From CG Require Import Spec.MinimizeSpec.
From CG Require Import Model.Regex.
From CG Require Import Model.Subset.
From CG Require Import Spec.Lang.
From CG Require Import Model.Lexer.
From CG Require Import Model.Parser.
From CG Require Import Spec.Printer.
From CG Require Import Model.Ambiguity.
From CG Require Import Model.Driver.
From CG Require Model.DotOfRegex.
From CG Require Import Model.EmitData.
From CG Require Import Spec.InvocationsSub.
From CG Require Import Model.Compiler.
From CG Require Import Model.Diag.
From CG Require Import Model.EmitZsh.
From CG Require Import Model.EmitPwsh.
From CG Require Import Model.EmitFish.
From CG Require Import Model.Main.
From CG Require Import Spec.Undercut.
(* add new Require lines above this line *)
Require Import ExtrOcamlBasic ExtrOcamlString.
Extraction Language OCaml.
Set Extraction KeepSingleton.
Separate Extraction
  Consts.builtins
  Consts.array_start_bash
  Check.from_grammar
  Dfa.accepts
  Dfa.inp_eqb
  Dfa.mkcdfa
  Dfa.mkall
  Dfa.trans_states
  Choice.spec
  Meaning.complete
  Meaning.ambiguous_run
  Meaning.matched
  Meaning.run
  Meaning.step
  Meaning.start
  Meaning.moves
  KnownC01.piece_boundary
  KnownC01.last_word_escape
  KnownC01.greedy_shadow
  Domain.C01_domain
  Domain.C01_env_ok
  Domain.C01_tail_only
  DomainCore.C01_domain_core
  TwoReadings.two_readings
  Ambig.find
  Quote.make_string_constant
  ShellDQ.read
  ShellDQ.read_list
  ShellDQ.admissibleb
  ShellDQ.outside_known_class
  Tables.all_tables
  Tables.valid_orders
  Tables.isomorphic_to
  EmitBash.script_of_dfa
  ScriptRead.read_stmts
  Dot.of_dfa_with
  Dot.of_regex_with
  Dot.old
  Dot.current
  Dot.starts_at_zero
  Dot.patched
  Dot.mkvariant
  Dot.escape_dot
  Dot.escape_quotes
  Dot.known_labels
  Dot.known_subacc
  Dot.known_phantom
  Dot.known_rx
  Dot.wf_cdfa
  Dot.known_rx_all
  Dot.rx_wf_b
  Dot.rx_total_b
  DotOfRegex.conv_regex
  DotOfRegex.conv_pool
  DotSpec.sub_ids
  DotRead.read
  DotRead.render_label
  DotSpec.graph_of_dfa
  DotSpec.view
  DotSpec.compare
  DotSpec.gdiff_ok
  DotSpec.regex_missing
  Glob.glob_match
  Glob.printf_q
  Glob.rm_longest_prefix
  Glob.rm_shortest_prefix
  Glob.rm_shortest_suffix
  BashSem.run_from
  BashSem.run
  BashSem.subword_matches
  BashSem.subword_complete
  BashSem.filter_lines
  BashSem.sort_desc
  BashSem.assoc_of
  ChainTables.chain_alltables
  C17Witness.w1
  C17Witness.w2
  Invocations.spec_run
  Mistakes.present
  Mistakes.specs_have_command_plain
  Warnings.unused_plain
  Warnings.unused_for_shell
  Warnings.undefined_reported
  Minimize.minimize
  Minimize.do_minimize
  DfaEquiv.validate
  DfaEquiv.equiv_dec
  DfaEquiv.trim_dec
  DfaEquiv.distinct_dec
  DfaEquiv.states
  MinimizeSpec.wfb
  Regex.from_valid_expr
  Regex.from_expr
  Regex.regex_first
  Regex.regex_follow
  Regex.arena_consistent
  Regex.unfold_arena
  Subset.dfa_from_regex
  Subset.valid_submap
  Subset.pick_first
  Subset.pick_last
  Subset.pick_script
  Lang.equiv_dfa_expr
  Lang.equiv_wdfa_expr
  Lang.levels_ok
  Parser.parse
  Parser.parse_with
  Parser.repaired
  Parser.pinned
  Printer.text
  Printer.located_with
  Printer.wf_stmt
  Printer.erase_grammar
  Ambiguity.check_ambiguity_best_effort
  Driver.compile
  EmitData.data_of_dfa
  InvocationsSub.spec_run_sw
  Compiler.compile_bash
  Compiler.compile_data
  Compiler.mkoracles
  Diag.render
  Diag.error_messages
  Diag.warning_messages
  EmitZsh.script_of_dfa
  EmitPwsh.script_of_dfa
  EmitFish.script_of_dfa
  Main.run
  Undercut.undercut
  (* add new roots above this line *)
  Prelude.pow2.
